/-
Model of `SearchStream` (src/search.rs: the shims `start/next/finish` with the adapter index `ax`
and the state guards, `start_inner/next_inner/finish_inner`), of the adapters `EntriesOnly` and
`PagedResults` (src/adapters.rs) and of `Ldap::search` (src/ldap.rs), over an ABSTRACT source:
every search the stream starts consumes the next *channel script* from `pages`; a script lists
what the receiver of that search will see (`Recv`).  A script that runs out means that nothing
more arrives and no deadline fires: the caller would wait forever (`pending`).

The connection below the channel (routing by message ID, the driver, scrub processing) is
Model/Conn.lean (C01/C05/C13); here it is abstracted to the scripts, the ghost list `reqs` of the
searches handed to `op_call` and the ghost list `scrubs` of the scrub messages sent (each names a
search by its 1-based ordinal in `reqs`, which is what `ldap.last_id` designates; 0 = no search
issued on this handle yet).

Every `unwrap/expect` that a call sequence could reach is an explicit `panic` outcome:
`self.rx.as_mut().unwrap()` (next_inner), `raw.parse()` of a paged-results control without a
(parsable) value, `parse_refs` on a malformed reference, `self.ldap.as_ref().expect("ldap_ref")`,
`ldap_ref.controls.clone().expect("saved ctrls")`.

Recursion: the adapter loops and the `ax` descent of `next` recurse on one fuel argument
(structural); `outOfFuel` is an explicit outcome which Lemmas/Stream*.lean prove unreachable for
`fuelOf`.  `start` and `finish` have no loops and are structural on the chain suffix.
-/
import Ldap3V.Model.Ber
namespace Ldap3V.Stream
open Ldap3V

/-- protocolOp of an item: SearchResultEntry (4), SearchResultReference (19), IntermediateResponse (25) -/
inductive Kind where | entry | ref | inter
  deriving DecidableEq, Repr

/-- a response control: `Control(Option<ControlType>, RawControl)` -/
structure Ctl where
  paged : Bool               -- tagged `ControlType::PagedResults` (OID 1.2.840.113556.1.4.319)
  cookie : Option Bytes      -- what `raw.parse::<PagedResults>()` yields; `none` = value absent or malformed (panic)
  tok : Nat                  -- everything else (identity of the control)
  deriving DecidableEq, Repr

/-- `ResultEntry(tag, controls)` -/
structure Item where
  kind : Kind
  tok : Nat                         -- identity of the payload
  uris : Option (List Bytes)        -- `parse_refs` of the payload; `none` = it panics (malformed reference)
  ctrls : List Ctl
  deriving DecidableEq, Repr

/-- matched DN + diagnostic text of a result -/
inductive Text where
  | server (tok : Nat)
  | userCancelled            -- "user cancelled"
  | alreadyFinalized         -- "stream already finalized"
  deriving DecidableEq, Repr

/-- `LdapResult` -/
structure Res where
  rc : Nat
  refs : List Bytes
  ctrls : List Ctl
  text : Text
  deriving DecidableEq, Repr

/-- what the receiving end of one search channel observes, in order -/
inductive Recv where
  | item (i : Item)
  | done (r : Res)           -- SearchItem::Done with the message's controls already in `r.ctrls`
  | closed                   -- all senders gone and the channel drained
  | timeout                  -- the deadline of this `next()` fires before anything else arrives
  deriving DecidableEq, Repr

inductive Err where
  | endOfStream | timeout | adapterInit | filterParsing
  | op (tok : Nat)           -- any error of `op_call` (OpSend, ResultRecv, Timeout of the acknowledgement, …)
  deriving DecidableEq, Repr

/-- the fate of one search: `op_call` succeeds and the channel behaves as scripted, or `op_call` fails -/
inductive Page where
  | script (l : List Recv)
  | fail (e : Err)
  deriving DecidableEq, Repr

/-- a request control (`RawControl`), as far as the adapters look at it -/
inductive RCtl where
  | paged (size : Int) (cookie : Bytes)    -- ctype = "1.2.840.113556.1.4.319"
  | other (tok : Nat)
  deriving DecidableEq, Repr

def RCtl.isPaged : RCtl → Bool
  | .paged .. => true
  | .other _ => false

/-- the per-operation modifiers of an `Ldap` handle -/
structure Handle where
  ctrls : Option (List RCtl) := none
  tmo : Option Nat := none
  opts : Option Nat := none            -- `SearchOptions`, opaque
  deriving DecidableEq, Repr

/-- base, scope, filter, attrs of `start` -/
structure Query where
  tok : Nat
  filterOk : Bool := true              -- `parse_filter(filter)` succeeds
  deriving DecidableEq, Repr

/-- one search handed to `op_call` -/
structure Req where
  ctrls : Option (List RCtl)
  opts : Option Nat
  tmo : Option Nat
  query : Query
  acked : Bool                         -- `op_call` returned Ok (the driver wrote the request and acknowledged it)
  deriving DecidableEq, Repr

inductive SState where | fresh | active | done | closed | error
  deriving DecidableEq, Repr

/-- `PagedResults { ldap, base, scope, filter, attrs }` once `start` has run -/
structure Saved where
  h : Handle
  q : Query
  deriving DecidableEq, Repr

inductive Adapter where
  | entriesOnly (refs : List Bytes)
  | paged (size : Int) (saved : Option Saved)
  deriving DecidableEq, Repr

structure Stream where
  state : SState := .fresh
  h : Handle := {}                       -- `stream.ldap` (modifiers only)
  tmo : Option Nat := none               -- `stream.timeout`
  res : Option Res := none
  rx : Option (List Recv) := none        -- the receiver: what it will still observe
  pages : List Page := []                -- scripts of the searches not yet started
  reqs : List Req := []                  -- ghost
  scrubs : List Nat := []                -- ghost
  deriving DecidableEq, Repr

/-- what `start` returns -/
inductive StartOut where
  | ok
  | err (e : Err)
  deriving DecidableEq, Repr

inductive NextOut where
  | ok (i : Option Item)
  | err (e : Err)
  | panic
  | pending
  | outOfFuel
  deriving DecidableEq, Repr

def cancelled : Res := ⟨88, [], [], .userCancelled⟩
def alreadyFinalized : Res := ⟨80, [], [], .alreadyFinalized⟩

/-! ### inner methods -/

/-- `start_inner`: search options taken, timeout copied, filter parsed, channel created, `op_call` -/
def startInner (s : Stream) (q : Query) : Stream × StartOut :=
  let opts := s.h.opts
  let s1 := { s with h := { s.h with opts := none }, tmo := s.h.tmo }
  if !q.filterOk then (s1, .err .filterParsing) else
  let page := match s1.pages with
    | [] => Page.script []
    | p :: _ => p
  let req : Req := ⟨s1.h.ctrls, opts, s1.h.tmo, q, match page with | .script _ => true | .fail _ => false⟩
  -- `op_call` takes the controls and the time-out; the search options are already gone
  let s2 := { s1 with h := {}, reqs := s1.reqs ++ [req], pages := s1.pages.tail }
  match page with
  | .script l => ({ s2 with rx := some l, state := .active }, .ok)
  | .fail e => ({ s2 with rx := some [] }, .err e)

/-- `next_inner` -/
def nextInner (s : Stream) : Stream × NextOut :=
  match s.rx with
  | none => (s, .panic)                                           -- `self.rx.as_mut().unwrap()`
  | some [] => (s, .pending)
  | some (.item i :: l) => ({ s with rx := some l }, .ok (some i))
  | some (.done r :: _) => ({ s with res := some r, rx := none }, .ok none)
  | some (.closed :: _) => ({ s with rx := none }, .err .endOfStream)
  | some (.timeout :: l) => ({ s with rx := some l, scrubs := s.scrubs ++ [s.reqs.length] }, .err .timeout)

/-- `finish_inner` -/
def finishInner (s : Stream) : Stream × Res :=
  let scrubs := if s.state ≠ .done then s.scrubs ++ [s.reqs.length] else s.scrubs
  ({ s with state := .closed, rx := none, res := none, scrubs := scrubs }, s.res.getD cancelled)

/-! ### shims and adapters -/

def errState (s : Stream) : StartOut → Stream
  | .err _ => { s with state := .error }
  | .ok => s

/-- `SearchStream::start` at adapter index `ax`, `chain` = `adapters[ax..]` -/
def start : List Adapter → Stream → Query → List Adapter × Stream × StartOut
  | [], s, q =>
    if s.state ≠ .fresh then ([], s, .ok) else
    let (s', r) := startInner s q
    ([], errState s' r, r)
  | .entriesOnly refs :: rest, s, q =>
    if s.state ≠ .fresh then (.entriesOnly refs :: rest, s, .ok) else
    -- EntriesOnly::start: `self.refs.clear()`
    let (rest', s', r) := start rest s q
    (.entriesOnly [] :: rest', errState s' r, r)
  | .paged size saved :: rest, s, q =>
    if s.state ≠ .fresh then (.paged size saved :: rest, s, .ok) else
    -- PagedResults::start
    let ctrls := s.h.ctrls.getD []
    if ctrls.any RCtl.isPaged then (.paged size saved :: rest, { s with state := .error }, .err .adapterInit) else
    let others := ctrls.filter fun c => !c.isPaged
    let sv : Saved := ⟨{ ctrls := some others, tmo := s.h.tmo, opts := s.h.opts }, q⟩
    let s1 := { s with h := { s.h with ctrls := some (others ++ [.paged size []]) } }
    let (rest', s', r) := start rest s1 q
    (.paged size (some sv) :: rest', errState s' r, r)

/-- `SearchStream::finish` at adapter index `ax` -/
def finish : List Adapter → Stream → List Adapter × Stream × Res
  | [], s =>
    if s.state = .closed then ([], s, alreadyFinalized) else
    let (s', r) := finishInner s
    ([], s', r)
  | .entriesOnly refs :: rest, s =>
    if s.state = .closed then (.entriesOnly refs :: rest, s, alreadyFinalized) else
    -- EntriesOnly::finish: `res.refs.extend(take(&mut self.refs))`
    let (rest', s', r) := finish rest s
    (.entriesOnly [] :: rest', s', { r with refs := r.refs ++ refs })
  | .paged size saved :: rest, s =>
    if s.state = .closed then (.paged size saved :: rest, s, alreadyFinalized) else
    let (rest', s', r) := finish rest s
    (.paged size saved :: rest', s', r)

/-- the shim's state transition after the call at this level returned; `top` ⇔ `ax == 0` -/
def post (top : Bool) (r : NextOut) (s : Stream) : Stream :=
  match r with
  | .ok none => if top then { s with state := .done } else s
  | .err _ => { s with state := .error }
  | _ => s

/-- index and value of the first control tagged `PagedResults` -/
def firstPaged : List Ctl → Option (Nat × Ctl)
  | [] => none
  | c :: cs => if c.paged then some (0, c) else (firstPaged cs).map fun p => (p.1 + 1, p.2)

/-- the direct `streaming_search` PagedResults::next issues on a clone of the saved handle:
a new stream whose `start_inner` shares the connection (ghosts, pending scripts) -/
def pageStart (sv : Saved) (ctrls : List RCtl) (s : Stream) : Stream × StartOut :=
  let tmp : Stream := { state := .fresh, h := { ctrls := some ctrls, tmo := sv.h.tmo, opts := sv.h.opts },
                        pages := s.pages, reqs := s.reqs, scrubs := s.scrubs }
  let (_, t, r) := start [] tmp sv.q
  match r with
  -- `stream.res = None` before the follow-up search is submitted: the previous page's result is not the
  -- result of the Search (fix F23); on success `stream.ldap` and `stream.rx` are replaced
  | .ok => ({ s with h := t.h, rx := t.rx, res := none, pages := t.pages, reqs := t.reqs, scrubs := t.scrubs }, r)
  | .err _ => ({ s with res := none, pages := t.pages, reqs := t.reqs, scrubs := t.scrubs }, r)

mutual
/-- `SearchStream::next` at adapter index `ax`; `top` ⇔ `ax == 0`, `chain` = `adapters[ax..]` -/
def next : Nat → Bool → List Adapter → Stream → List Adapter × Stream × NextOut
  | 0, _, chain, s => (chain, s, .outOfFuel)
  | fuel + 1, top, chain, s =>
    if s.state ≠ .active then (chain, s, .ok none) else
    match chain with
    | [] =>
      let (s', r) := nextInner s
      ([], post top r s', r)
    | .entriesOnly refs :: rest =>
      let (refs', rest', s', r) := eoLoop fuel refs rest s
      (.entriesOnly refs' :: rest', post top r s', r)
    | .paged size saved :: rest =>
      let (rest', s', r) := prLoop fuel size saved rest s
      (.paged size saved :: rest', post top r s', r)

/-- `EntriesOnly::next` -/
def eoLoop : Nat → List Bytes → List Adapter → Stream → List Bytes × List Adapter × Stream × NextOut
  | 0, refs, rest, s => (refs, rest, s, .outOfFuel)
  | fuel + 1, refs, rest, s =>
    match next fuel false rest s with
    | (rest', s', .ok (some it)) =>
      if it.kind = .inter then eoLoop fuel refs rest' s'
      else if it.kind = .ref then
        match it.uris with
        | some us => eoLoop fuel (refs ++ us) rest' s'
        | none => (refs, rest', s', .panic)                         -- `parse_refs` panics
      else (refs, rest', s', .ok (some it))
    | (rest', s', r) => (refs, rest', s', r)

/-- `PagedResults::next` -/
def prLoop : Nat → Int → Option Saved → List Adapter → Stream → List Adapter × Stream × NextOut
  | 0, _, _, rest, s => (rest, s, .outOfFuel)
  | fuel + 1, size, saved, rest, s =>
    match next fuel false rest s with
    | (rest', s', .ok none) =>
      match s'.res with
      | none => (rest', s', .ok none)
      | some res =>
        match firstPaged res.ctrls with
        | none => (rest', s', .ok none)
        | some (idx, c) =>
          match c.cookie with
          | none => (rest', s', .panic)                              -- `raw.parse()`
          | some ck =>
            if ck.isEmpty then
              (rest', { s' with res := some { res with ctrls := res.ctrls.eraseIdx idx } }, .ok none)
            else
              match saved with
              | none => (rest', s', .panic)                          -- `expect("ldap_ref")`
              | some sv =>
                match sv.h.ctrls with
                | none => (rest', s', .panic)                        -- `expect("saved ctrls")`
                | some cs =>
                  match pageStart sv (cs ++ [.paged size ck]) s' with
                  | (s'', .err e) => (rest', s'', .err e)
                  | (s'', .ok) => prLoop fuel size saved rest' s''
    | (rest', s', r) => (rest', s', r)
end

/-! ### the stream object and call sequences -/

structure M where
  chain : List Adapter
  s : Stream
  deriving DecidableEq, Repr

inductive Call where
  | start (q : Query)
  | next
  | finish
  | state
  deriving DecidableEq, Repr

inductive Output where
  | started (r : StartOut)
  | item (r : NextOut)
  | result (r : Res)
  | st (s : SState)
  deriving DecidableEq, Repr

def scriptLen : Page → Nat
  | .script l => l.length
  | .fail _ => 0

/-- everything the stream can still observe: the rest of the current script, every pending script, one per pending page -/
def remaining (s : Stream) : Nat :=
  (s.rx.getD []).length + (s.pages.map fun p => scriptLen p + 1).sum

/-- fuel for one `next()` call -/
def fuelOf (m : M) : Nat := 2 * remaining m.s + 2 * m.chain.length + 4

def step (m : M) : Call → M × Output
  | .start q =>
    let (c, s, r) := start m.chain m.s q
    (⟨c, s⟩, .started r)
  | .next =>
    let (c, s, r) := next (fuelOf m) true m.chain m.s
    (⟨c, s⟩, .item r)
  | .finish =>
    let (c, s, r) := finish m.chain m.s
    (⟨c, s⟩, .result r)
  | .state => (m, .st m.s.state)

/-- the caller never gets control back: the call sequence ends here -/
def Output.stuck : Output → Bool
  | .item .pending => true
  | .item .panic => true
  | .item .outOfFuel => true
  | _ => false

def run (m : M) : List Call → List Output
  | [] => []
  | c :: cs =>
    let (m', o) := step m c
    o :: (if o.stuck then [] else run m' cs)

/-- final machine state after the calls (stops where `run` stops) -/
def exec (m : M) : List Call → M
  | [] => m
  | c :: cs =>
    let (m', o) := step m c
    if o.stuck then m' else exec m' cs

/-- `SearchStream::new(ldap, adapters)` with the handle's modifiers as `streaming_search_with` moved them -/
def init (chain : List Adapter) (h : Handle) (pages : List Page) : M :=
  ⟨chain, { h := h, pages := pages }⟩

def eo : Adapter := .entriesOnly []
def pr (size : Int) : Adapter := .paged size none

/-! ### `Ldap::search` -/

inductive SearchOut where
  | ok (entries : List Item) (res : Res)
  | err (e : Err)
  | panic
  | pending
  | outOfFuel
  deriving DecidableEq, Repr

/-- `while let Some(entry) = stream.next().await? { re_vec.push(entry) }`, then `finish()`;
an `Err` from `next()` is returned and the stream dropped without `finish()` -/
def collect : Nat → M → List Item → SearchOut
  | 0, _, _ => .outOfFuel
  | n + 1, m, acc =>
    match next (fuelOf m) true m.chain m.s with
    | (c, s, .ok (some it)) => collect n ⟨c, s⟩ (acc ++ [it])
    | (c, s, .ok none) => .ok acc (finish c s).2.2
    | (_, _, .err e) => .err e
    | (_, _, .panic) => .panic
    | (_, _, .pending) => .pending
    | (_, _, .outOfFuel) => .outOfFuel

/-- `Ldap::search` = `streaming_search_with(EntriesOnly::new(), …)`, drain, `finish()` -/
def search (h : Handle) (pages : List Page) (q : Query) : SearchOut :=
  match start [eo] { h := h, pages := pages } q with
  | (c, s, .ok) => collect (remaining s + 1) ⟨c, s⟩ []
  | (_, _, .err e) => .err e

end Ldap3V.Stream

/-
Model of `get_url_params` (src/util.rs), with `LdapUrlExt` (kind-only `Eq`/`Hash`),
`LdapUrlParams` and `ascii_lc_equal`, as written at /repo HEAD.

The model starts at what `url.path()` / `url.query()` return: the `url` crate itself (parsing,
its own percent-encoding of the text, dot-segment removal) is OUTSIDE the model — a named
environment assumption that the `url` lane checks on every case.  `percent_decode_str(..)
.decode_utf8()` of the `percent-encoding` crate IS modelled (`percentDecode` + `utf8Valid`).
Strings are their UTF-8 bytes.  Core Lean only, total, computable.
-/
import Ldap3V.Model.Utf8
namespace Ldap3V.Url
open Ldap3V

/-! ## `percent_encoding::percent_decode_str(..).decode_utf8()` -/

/-- `char::from(b).to_digit(16)` -/
def hexVal (c : UInt8) : Option UInt8 :=
  if 0x30 ≤ c.toNat ∧ c.toNat ≤ 0x39 then some (c - 0x30)
  else if 0x41 ≤ c.toNat ∧ c.toNat ≤ 0x46 then some (c - 0x37)
  else if 0x61 ≤ c.toNat ∧ c.toNat ≤ 0x66 then some (c - 0x57)
  else none

/-- `PercentDecode::next` iterated: `%` followed by two hex digits is one byte (`h * 0x10 + l`);
any other `%` is kept and decoding goes on with the byte right after it. -/
def percentDecode : Bytes → Bytes
  | [] => []
  | b :: r =>
    if b = 0x25 then
      match r with
      | h :: l :: r' =>
        match hexVal h, hexVal l with
        | some x, some y => (x * 0x10 + y) :: percentDecode r'
        | _, _ => b :: percentDecode (h :: l :: r')
      | [c] => [b, c]
      | [] => [b]
    else b :: percentDecode r

/-- `percent_decode_str(s).decode_utf8()`; `none` = `Utf8Error` (mapped to `DecodingUTF8`) -/
def decodeUtf8 (s : Bytes) : Option Bytes :=
  let d := percentDecode s
  if utf8Valid d then some d else none

/-! ## `str::split`, `str::splitn` for an ASCII separator -/

/-- first occurrence of `sep`: text before it and text after it -/
def breakAt (sep : UInt8) : Bytes → Option (Bytes × Bytes)
  | [] => none
  | b :: r =>
    if b = sep then some ([], r)
    else match breakAt sep r with
      | some (a, t) => some (b :: a, t)
      | none => none

/-- `s.splitn(n, sep).collect()` -/
def splitN : Nat → UInt8 → Bytes → List Bytes
  | 0, _, _ => []
  | 1, _, s => [s]
  | n + 2, sep, s =>
    match breakAt sep s with
    | none => [s]
    | some (a, t) => a :: splitN (n + 1) sep t

/-- `s.split(sep).collect()`: always at least one piece -/
def split (sep : UInt8) : Bytes → List Bytes
  | [] => [[]]
  | b :: r =>
    if b = sep then [] :: split sep r
    else match split sep r with
      | p :: ps => (b :: p) :: ps
      | [] => [[b]]

/-- `match it.next() { Some("") | None => d, Some(x) => f(x) }` -/
def orDefault {α : Type} (o : Option Bytes) (d : α) (f : Bytes → α) : α :=
  match o with
  | none => d
  | some [] => d
  | some (b :: r) => f (b :: r)

/-! ## types -/

/-- `ldap3::Scope` -/
inductive Scope where
  | base | oneLevel | subtree
  deriving Repr, DecidableEq, Inhabited

/-- the variants of `LdapUrlExt` that can be in the set (`Unknown` is never inserted) -/
inductive ExtKind where
  | bindname | xbindpw | credentials | saslMech | startTls
  deriving Repr, DecidableEq, Inhabited

/-- one element of `extensions`; `StartTLS` carries no value (`value = []`) -/
structure Ext where
  kind : ExtKind
  value : Bytes
  deriving Repr, DecidableEq, Inhabited

/-- `LdapUrlParams`; `exts` is the `HashSet` as an association list in insertion order
(at most one element per kind, because `Eq`/`Hash` of `LdapUrlExt` look at the variant only) -/
structure Params where
  base : Bytes
  attrs : List Bytes
  scope : Scope
  filter : Bytes
  exts : List Ext
  deriving Repr, DecidableEq, Inhabited

inductive UrlErr where
  | decodingUtf8            -- LdapError::DecodingUTF8
  | invalidScope            -- LdapError::InvalidScopeString
  | unrecognizedCritical    -- LdapError::UnrecognizedCriticalExtension
  deriving Repr, DecidableEq, Inhabited

inductive Result where
  | ok (p : Params)
  | err (e : UrlErr)
  /-- `&id[..1]` where byte 1 is not a char boundary (extension type starting with a non-ASCII
  character).  Not reachable through `Url::parse`, whose `query()` is always ASCII. -/
  | panic
  deriving Repr, DecidableEq, Inhabited

/-! ## `ascii_lc_equal` -/

/-- `u8::to_ascii_lowercase` -/
def toAsciiLower (b : UInt8) : UInt8 :=
  if 0x41 ≤ b.toNat ∧ b.toNat ≤ 0x5A then b + 0x20 else b

/-- `ascii_lc_equal(s, t)`: equal lengths, and `s[i] == t[i].to_ascii_lowercase()` for all `i`
— only `t` is lower-cased; every call passes the lower-case literal as `s`. -/
def asciiLcEqual (s t : Bytes) : Bool :=
  if s.length ≠ t.length then false
  else (s.zip (t.map toAsciiLower)).all (fun p => p.1 == p.2)

/-! ## the extension loop -/

def oidCredentials : Bytes := [0x31, 0x2E, 0x33, 0x2E, 0x36, 0x2E, 0x31, 0x2E, 0x34, 0x2E, 0x31, 0x2E, 0x31, 0x30, 0x30, 0x39, 0x34, 0x2E, 0x31, 0x2E, 0x35, 0x2E, 0x31] /- "1.3.6.1.4.1.10094.1.5.1" -/
def oidSaslMech : Bytes := [0x31, 0x2E, 0x33, 0x2E, 0x36, 0x2E, 0x31, 0x2E, 0x34, 0x2E, 0x31, 0x2E, 0x31, 0x30, 0x30, 0x39, 0x34, 0x2E, 0x31, 0x2E, 0x35, 0x2E, 0x32] /- "1.3.6.1.4.1.10094.1.5.2" -/
def oidStartTls : Bytes := [0x31, 0x2E, 0x33, 0x2E, 0x36, 0x2E, 0x31, 0x2E, 0x34, 0x2E, 0x31, 0x2E, 0x31, 0x34, 0x36, 0x36, 0x2E, 0x32, 0x30, 0x30, 0x33, 0x37] /- "1.3.6.1.4.1.1466.20037" -/
def litBindname : Bytes := [0x62, 0x69, 0x6E, 0x64, 0x6E, 0x61, 0x6D, 0x65] /- "bindname" -/
def litXBindpw : Bytes := [0x78, 0x2D, 0x62, 0x69, 0x6E, 0x64, 0x70, 0x77] /- "x-bindpw" -/

/-- the `match id { … }` chain without the values: which variant an extension type selects;
`none` = the `Unknown` arm -/
def classify (id : Bytes) : Option ExtKind :=
  if id = oidCredentials then some .credentials
  else if id = oidSaslMech then some .saslMech
  else if id = oidStartTls then some .startTls
  else if asciiLcEqual litBindname id then some .bindname
  else if asciiLcEqual litXBindpw id then some .xbindpw
  else none

/-- `str::is_char_boundary(1)` for a non-empty string -/
def charBoundary1 (id : Bytes) : Bool :=
  match id with
  | _ :: b :: _ => !isCont b
  | _ => true

inductive ExtStep where
  | insert (e : Ext)      -- `ext_set.insert(ext)`
  | skip                  -- `Unknown("")`: not inserted
  | err (e : UrlErr)
  | panic
  deriving Repr, DecidableEq

/-- `let mut idv = ext.splitn(2, '='); let id = idv.next().unwrap_or(""); … let val = idv.next();` -/
def splitIdVal (ext : Bytes) : Bytes × Option Bytes :=
  match breakAt 0x3D ext with
  | some (a, t) => (a, some t)
  | none => (ext, none)

/-- `if !id.is_empty() && &id[..1] == "!" { id = &id[1..]; crit = true }` (after the boundary check) -/
def critOf (id0 : Bytes) : Bool × Bytes :=
  match id0 with
  | [] => (false, [])
  | b :: r => if b = 0x21 then (true, r) else (false, b :: r)

/-- the `match id { … }` with `val` already decoded -/
def extOf (crit : Bool) (id v : Bytes) : ExtStep :=
  match classify id with
  | some .startTls => .insert ⟨.startTls, []⟩
  | some k => .insert ⟨k, v⟩
  | none => if crit then .err .unrecognizedCritical else .skip

/-- body of `for ext in exts.split(',')` -/
def extStep (ext : Bytes) : ExtStep :=
  let iv := splitIdVal ext
  -- `&id[..1]` panics when index 1 is inside a character
  if !iv.1.isEmpty && !charBoundary1 iv.1 then .panic else
  let ci := critOf iv.1
  -- percent_decode_str(val.unwrap_or("")).decode_utf8().map_err(|_| DecodingUTF8)?   (before the match)
  match decodeUtf8 (iv.2.getD []) with
  | none => .err .decodingUtf8
  | some v => extOf ci.1 ci.2 v

/-- `HashSet::insert` with kind-only equality: an element of the same kind already present is
NOT replaced -/
def insertExt (acc : List Ext) (e : Ext) : List Ext :=
  if acc.any (fun x => x.kind == e.kind) then acc else acc ++ [e]

inductive ExtsResult where
  | ok (s : List Ext)
  | err (e : UrlErr)
  | panic
  deriving Repr, DecidableEq

def extLoop : List Bytes → List Ext → ExtsResult
  | [], acc => .ok acc
  | e :: es, acc =>
    match extStep e with
    | .panic => .panic
    | .err x => .err x
    | .skip => extLoop es acc
    | .insert x => extLoop es (insertExt acc x)

/-! ## `get_url_params` -/

def litBase : Bytes := [0x62, 0x61, 0x73, 0x65] /- "base" -/
def litOne : Bytes := [0x6F, 0x6E, 0x65] /- "one" -/
def litSub : Bytes := [0x73, 0x75, 0x62] /- "sub" -/
def litStar : Bytes := [0x2A] /- "*" -/
def litDefaultFilter : Bytes := [0x28, 0x6F, 0x62, 0x6A, 0x65, 0x63, 0x74, 0x43, 0x6C, 0x61, 0x73, 0x73, 0x3D, 0x2A, 0x29] /- "(objectClass=*)" -/

/-- `if base.chars().next().unwrap_or('\0') == '/' { base = &base[1..] }` -/
def stripSlash : Bytes → Bytes
  | 0x2F :: r => r
  | p => p

def parseScope (w : Bytes) : Option Scope :=
  if w = litBase then some .base
  else if w = litOne then some .oneLevel
  else if w = litSub then some .subtree
  else none

def getUrlParams (path : Bytes) (query : Option Bytes) : Result :=
  match decodeUtf8 (stripSlash path) with
  | none => .err .decodingUtf8
  | some base =>
    let q := splitN 4 0x3F (query.getD [])
    let attrs := orDefault q[0]? [litStar] (fun alist => split 0x2C alist)
    match orDefault q[1]? (some Scope.subtree) parseScope with
    | none => .err .invalidScope
    | some scope =>
      let filterTxt := orDefault q[2]? litDefaultFilter id
      match decodeUtf8 filterTxt with
      | none => .err .decodingUtf8
      | some filter =>
        match orDefault q[3]? (ExtsResult.ok []) (fun exts => extLoop (split 0x2C exts) []) with
        | .panic => .panic
        | .err e => .err e
        | .ok exts => .ok { base, attrs, scope, filter, exts }

end Ldap3V.Url

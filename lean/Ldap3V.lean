import Ldap3V.Model.Ber
import Ldap3V.Spec.Ber
import Ldap3V.Props.C07

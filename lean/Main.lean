/- Line-protocol driver: one request per line on stdin, one answer per line on stdout. -/
import Ldap3V.Driver.Ber
import Ldap3V.Driver.Envelope
import Ldap3V.Driver.Filter
import Ldap3V.Driver.Escape
import Ldap3V.Driver.Entry
import Ldap3V.Driver.Codecs
import Ldap3V.Driver.Url
import Ldap3V.Driver.Requests
import Ldap3V.Driver.Results
import Ldap3V.Driver.Conn
import Ldap3V.Driver.Stream
import Ldap3V.Driver.Setup
import Ldap3V.Driver.Sync
import Ldap3V.Driver.Explore
import Ldap3V.Driver.Tls
import Ldap3V.Driver.StreamTimed
open Ldap3V.Driver

def handlers : List (String → String → Option String) :=
  [handleBer, handleEnvelope, handleFilter, handleEscape, handleEntry, handleCodecs, handleUrl,
   handleRequests, handleResults, handleConn, handleStream, handleSetup, handleSync, handleExplore, handleTls, handleStreamTimed]

def dispatch (line : String) : String :=
  let (cmd, arg) := splitCmd line
  match handlers.findSome? (fun h => h cmd arg) with
  | some r => r
  | none => "unknown-command"

partial def loop (h : IO.FS.Stream) (out : IO.FS.Stream) : IO Unit := do
  let line ← h.getLine
  if line.isEmpty then return ()
  let l := if line.endsWith "\n" then (line.dropEnd 1).toString else line
  out.putStrLn (dispatch l)
  loop h out

def main : IO Unit := do
  let stdin ← IO.getStdin
  let stdout ← IO.getStdout
  loop stdin stdout
  stdout.flush

/- Line-protocol driver: one request per line on stdin, one answer per line on stdout. -/
import Ldap3V.Driver.Ber
open Ldap3V.Driver

def dispatch (line : String) : String :=
  let (cmd, arg) := splitCmd line
  match handleBer cmd arg with
  | some r => r
  | none => "unknown-command"

partial def loop (h : IO.FS.Stream) (out : IO.FS.Stream) : IO Unit := do
  let line ← h.getLine
  if line.isEmpty then return ()
  let l := if line.endsWith "\n" then (line.dropEnd 1).toString else line
  out.putStrLn (dispatch l)
  loop h out

def main : IO Unit := do
  let stdin ← IO.getStdin
  let stdout ← IO.getStdout
  loop stdin stdout
  stdout.flush
